(* wire format of values (see harness/values.go) <-> extracted model values *)
open Model
open Conv

let kind_of_string = function
  | "i" -> GInt | "i8" -> GInt8 | "i16" -> GInt16 | "i32" -> GInt32 | "i64" -> GInt64
  | "u" -> GUint | "u8" -> GUint8 | "u16" -> GUint16 | "u32" -> GUint32 | "u64" -> GUint64 | "up" -> GUintptr
  | s -> failwith ("kind " ^ s)

let string_of_kind = function
  | GInt -> "i" | GInt8 -> "i8" | GInt16 -> "i16" | GInt32 -> "i32" | GInt64 -> "i64"
  | GUint -> "u" | GUint8 -> "u8" | GUint16 -> "u16" | GUint32 -> "u32" | GUint64 -> "u64" | GUintptr -> "up"

(* decimal printing of an arbitrary Z via the model's own digit function *)
let dec_string_of_z (x : z) : ostring =
  let s = dec_to_string (Fin (false, (match x with Zneg p -> Zpos p | _ -> x), Z0)) in
  let body = String.concat "" (List.map (fun b -> String.make 1 (Char.chr (int_of_z b))) s) in
  (match x with Zneg _ -> "-" | _ -> "") ^ body

let split_colon s = String.split_on_char ':' s

let rec parse_val (toks : ostring list ref) : value =
  match !toks with
  | [] -> failwith "value: end of input"
  | t :: rest ->
    toks := rest;
    let body = String.sub t 1 (String.length t - 1) in
    match t.[0] with
    | 'N' -> VNull
    | 'T' -> VBool true
    | 'F' -> VBool false
    | 'D' ->
      if t = "Dnan" then VNum NaN else if t = "Dinf" then VNum (Inf false) else if t = "D-inf" then VNum (Inf true)
      else (match split_colon body with
          | [sg; c; e] -> VNum (Fin (sg = "-", z_of_dec c, z_of_dec e))
          | _ -> failwith "D")
    | 'S' -> VStr (bytes_of_hex body)
    | 'I' -> (match split_colon body with [k; n] -> VGoInt (kind_of_string k, z_of_dec n) | _ -> failwith "I")
    | 'G' | 'g' -> VGoFloat (bytes_of_hex body)
    | 'M' -> (match split_colon body with
        | [ns; off] | [ns; off; _] -> VTime { t_ns = z_of_dec ns; t_off = z_of_dec off }   (* a zone name, if any, is not part of the model's time *)
        | _ -> failwith "M")
    | 'Z' when body = "n" -> VArr []      (* a nil typed slice: an empty array *)
    | 'Y' when body = "n" -> VMap []      (* a nil typed map: an empty map *)
    | 'A' | 'Z' -> let n = int_of_string body in VArr (List.init n (fun _ -> parse_val toks))
    | 'O' | 'Y' ->
      let n = int_of_string body in
      VMap (List.init n (fun _ ->
          let k = (match !toks with k :: r -> toks := r; k | [] -> failwith "O key") in
          let kb = bytes_of_hex (String.sub k 1 (String.length k - 1)) in
          let v = parse_val toks in (kb, v)))
    | 'Q' ->
      let n = int_of_string body in
      VMap (List.init n (fun _ ->
          let k = (match !toks with k :: r -> toks := r; k | [] -> failwith "Q key") in
          let kb = bytes_of_hex (String.sub k 1 (String.length k - 1)) in
          let v = parse_val toks in (kb, v)))
    | 'R' ->
      (* R<id>:<n> S<name> <value> ... : a struct by its selectable fields *)
      (* R<palette entry>.<type number>:<n>; the model's struct id is the type number *)
      let (id, n) = (match String.split_on_char ':' body with
          | [a; b] -> ((match String.split_on_char '.' a with [_; tid] -> tid | _ -> a), int_of_string b)
          | _ -> failwith "R") in
      VStruct (z_of_dec id, List.init n (fun _ ->
          let k = (match !toks with k :: r -> toks := r; k | [] -> failwith "R key") in
          let kb = bytes_of_hex (String.sub k 1 (String.length k - 1)) in
          let v = parse_val toks in (kb, v)))
    | 'H' -> VFunc (z_of_dec body)
    | 'B' -> VBuiltin (bytes_of_hex body)
    | 'P' -> if t = "Pd" then VNull else VNilPtr   (* a nil *decimal.Big is normalised to the untyped null when read *)
    | 'C' -> VCtx
    | 'X' -> VOpaque (z_of_dec body)
    | _ -> failwith ("value token " ^ t)

let value_of_wire (s : ostring) : value =
  let toks = ref (List.filter (fun x -> x <> "") (String.split_on_char ' ' s)) in
  parse_val toks

let canon_dec (d : dec) : ostring =
  match d with
  | NaN -> "Dnan"
  | Inf n -> if n then "D-inf" else "Dinf"
  | Fin (n, c, e) ->
    (match c with
     | Z0 -> "D+:0:0"
     | _ ->
       let (c', e') = strip_zeros c e in
       Printf.sprintf "D%s:%s:%s" (if n then "-" else "+") (dec_string_of_z c') (dec_string_of_z e'))

let rec print_val (b : Buffer.t) (v : value) : unit =
  let add = Buffer.add_string b in
  match v with
  | VNull -> add "N"
  | VBool x -> add (if x then "T" else "F")
  | VNum d -> add (canon_dec d)
  | VStr s -> add ("S" ^ hex_of_bytes s)
  | VTime t -> add (Printf.sprintf "M%s:%s" (dec_string_of_z t.t_ns) (dec_string_of_z t.t_off))
  | VArr l -> add (Printf.sprintf "A%d" (List.length l)); List.iter (fun x -> add " "; print_val b x) l
  | VMap m ->
    let m' = List.sort (fun (k1, _) (k2, _) -> compare (List.map int_of_z k1) (List.map int_of_z k2)) m in
    add (Printf.sprintf "O%d" (List.length m'));
    List.iter (fun (k, x) -> add (" S" ^ hex_of_bytes k ^ " "); print_val b x) m'
  | VFunc _ -> add "H"
  | VBuiltin n -> add ("B" ^ hex_of_bytes n)
  | VGoInt (k, n) -> add (Printf.sprintf "I%s:%s" (string_of_kind k) (dec_string_of_z n))
  | VGoFloat s -> add ("G" ^ hex_of_bytes s)
  | VNilPtr -> add "P"
  | VCtx -> add "C"
  | VOpaque _ -> add "X"
  | VStruct (id, _) -> add ("R" ^ dec_string_of_z id)

let wire_of_value (v : value) : ostring =
  let b = Buffer.create 64 in print_val b v; Buffer.contents b

let rec type_of_string (s : ostring) : gotype =
  (* "N<t>": a named (defined) type with underlying type t - the bridge converts to the declared type, whose
     behaviour is that of its underlying type *)
  if String.length s > 1 && s.[0] = 'N' then type_of_string (String.sub s 1 (String.length s - 1)) else
  match s with
  | "s" -> TString | "b" -> TBool | "a" -> TIface | "d" -> TDec | "t" -> TTime
  | "f32" -> TFloat true | "f64" -> TFloat false
  | _ ->
    if s.[0] = '[' then TSlice (type_of_string (String.sub s 1 (String.length s - 1)))
    else if s.[0] = '{' then TMapStr (type_of_string (String.sub s 1 (String.length s - 1)))
    else TInt (kind_of_string s)

(* id:ctx:variadic:nres:fail:params:result *)
let host_of_spec (s : ostring) : z * hostfn =
  match split_colon s with
  | id :: ctx :: var :: nres :: fail :: params :: res ->
    let ps = if params = "-" then [] else List.map type_of_string (String.split_on_char ',' params) in
    let variadic = var = "1" in
    (* the harness gives the element type of a variadic tail; the model's signature has the slice *)
    let ps = if variadic then
        (match List.rev ps with
         | last :: r -> List.rev (TSlice last :: r)
         | [] -> ps)
      else ps in
    let resw = String.concat ":" res in
    let resw = String.map (fun c -> if c = '_' then ' ' else c) resw in
    (z_of_dec id,
     { h_sig = { sig_ctx = ctx = "1"; sig_params = ps; sig_variadic = variadic; sig_nres = z_of_dec nres };
       h_result = value_of_wire resw; h_fail = fail = "1" })
  | _ -> failwith "host spec"

let hosts_of_spec (s : ostring) : (z * hostfn) list =
  if s = "-" then [] else List.map host_of_spec (String.split_on_char ';' s)
