(* Conversions between OCaml values and the extracted Coq datatypes, and canonical printing.
   Trusted glue: no model logic lives here. *)
type ostring = string
open Model

let rec pos_of_int (n : int) : positive =
  if n = 1 then XH
  else if n land 1 = 0 then XO (pos_of_int (n lsr 1))
  else XI (pos_of_int (n lsr 1))

let z_of_int (n : int) : z =
  if n = 0 then Z0 else if n > 0 then Zpos (pos_of_int n) else Zneg (pos_of_int (-n))

let rec int_of_pos (p : positive) : int =
  match p with XH -> 1 | XO q -> 2 * int_of_pos q | XI q -> 2 * int_of_pos q + 1

(* only for values known to fit an OCaml int (positions, kinds, bytes) *)
let int_of_z (x : z) : int =
  match x with Z0 -> 0 | Zpos p -> int_of_pos p | Zneg p -> - (int_of_pos p)

(* arbitrary size: hexadecimal, most significant digit first *)
let hex_of_pos (p : positive) : ostring =
  (* collect bits least significant first *)
  let rec bits p acc = match p with
    | XH -> 1 :: acc
    | XO q -> bits q (0 :: acc)   (* note: builds most-significant-first after recursion *)
    | XI q -> bits q (1 :: acc) in
  (* bits returns msb first? p = XO q means lsb 0; recursion goes toward msb, consing msb last
     would give lsb first; we cons the current lsb onto acc BEFORE recursing, so acc ends msb first. *)
  let msb_first = bits p [] in
  let n = List.length msb_first in
  let pad = (4 - n mod 4) mod 4 in
  let l = (List.init pad (fun _ -> 0)) @ msb_first in
  let buf = Buffer.create 16 in
  let rec go l = match l with
    | a :: b :: c :: d :: t ->
      Buffer.add_char buf "0123456789abcdef".[a * 8 + b * 4 + c * 2 + d]; go t
    | [] -> ()
    | _ -> assert false in
  go l; Buffer.contents buf

let hex_of_z (x : z) : ostring =
  match x with Z0 -> "0" | Zpos p -> hex_of_pos p | Zneg p -> "-" ^ hex_of_pos p

let z_of_hex (s : ostring) : z =
  let neg, s = if String.length s > 0 && s.[0] = '-' then true, String.sub s 1 (String.length s - 1) else false, s in
  let sixteen = z_of_int 16 in
  let acc = ref Z0 in
  String.iter (fun c ->
      let d = match c with
        | '0'..'9' -> Char.code c - 48
        | 'a'..'f' -> Char.code c - 87
        | 'A'..'F' -> Char.code c - 55
        | _ -> failwith "z_of_hex" in
      acc := Z.add (Z.mul !acc sixteen) (z_of_int d)) s;
  if neg then Z.opp !acc else !acc

let z_of_dec (s : ostring) : z =
  let neg, s = if String.length s > 0 && s.[0] = '-' then true, String.sub s 1 (String.length s - 1) else false, s in
  let ten = z_of_int 10 in
  let acc = ref Z0 in
  String.iter (fun c -> acc := Z.add (Z.mul !acc ten) (z_of_int (Char.code c - 48))) s;
  if neg then Z.opp !acc else !acc

(* bytes <-> hex text; "-" encodes the empty string so that fields are never empty *)
let bytes_of_hex (s : ostring) : z list =
  if s = "-" then [] else
  let n = String.length s / 2 in
  List.init n (fun i -> z_of_int (int_of_string ("0x" ^ String.sub s (2 * i) 2)))

let hex_of_bytes (l : z list) : ostring =
  if l = [] then "-" else
  String.concat "" (List.map (fun b -> Printf.sprintf "%02x" (int_of_z b)) l)

let string_of_zint (x : z) : ostring = string_of_int (int_of_z x)

let split_tab (s : ostring) : ostring list = String.split_on_char '\t' s
