(* Model driver: reads one case per line (tab separated, first field = command) and prints
   one canonical observation per line, computed by the functions extracted from Coq. *)
open Model
open Conv
open Values

let obs_line_col (text : z list) (off : z) : ostring =
  match line_col text off with
  | None -> "none"
  | Some (l, c) -> Printf.sprintf "%s,%s" (string_of_zint l) (string_of_zint c)

let obs_diag ((sl, c) : (z * z) * z) : ostring =
  let (s, l) = sl in
  Printf.sprintf "%s/%s/%s" (string_of_zint s) (string_of_zint l) (string_of_zint c)

let obs_token (t : token) : ostring =
  let has_val = match t.tk with
    | KNumber | KString | KIdent | KTrue | KFalse | KNull | KThis | KCtx | KTypeof -> true
    | _ -> false in
  Printf.sprintf "%s:%s:%s:%s:%d:%s:%s"
    (string_of_zint (kind_code t.tk)) (string_of_zint t.tstart) (string_of_zint t.tpos)
    (string_of_zint t.tend) (if t.tnl then 1 else 0)
    (if has_val then hex_of_bytes t.tval else "-")
    (String.concat "," (List.map obs_diag t.tdiags))

let obs_scan (text : z list) : ostring =
  match scan_all text with
  | None -> "out-of-fuel"
  | Some toks -> String.concat ";" (List.map obs_token toks)

let zi = string_of_zint

let rec tree (b : Buffer.t) (x : expr) : unit =
  let add = Buffer.add_string b in
  let kc k = zi (kind_code k) in
  match x with
  | EIdent (orig, v, p, e) -> add (Printf.sprintf "(I %s %s %s %s)" (kc orig) (hex_of_bytes v) (zi p) (zi e))
  | EMissing p -> add (Printf.sprintf "(I 0 - %s %s)" (zi p) (zi p))
  | ELit (k, v, p, e) -> add (Printf.sprintf "(L %s %s %s %s)" (kc k) (hex_of_bytes v) (zi p) (zi e))
  | EPrefix (op, opp, ope, a, p, e) ->
    add (Printf.sprintf "(P %s %s %s " (kc op) (zi opp) (zi ope)); tree b a; add (Printf.sprintf " %s %s)" (zi p) (zi e))
  | ETypeof (a, p, e) -> add "(T "; tree b a; add (Printf.sprintf " %s %s)" (zi p) (zi e))
  | EBin (l, op, opp, ope, r, p, e) ->
    add "(B "; tree b l; add (Printf.sprintf " %s %s %s " (kc op) (zi opp) (zi ope)); tree b r;
    add (Printf.sprintf " %s %s)" (zi p) (zi e))
  | ECond (c, qp, qe, t, colon, cp, ce, f, p, e) ->
    add "(C "; tree b c; add (Printf.sprintf " %s %s " (zi qp) (zi qe)); tree b t;
    add (Printf.sprintf " %s %s %s " (if colon then "35" else "0") (zi cp) (zi ce)); tree b f;
    add (Printf.sprintf " %s %s)" (zi p) (zi e))
  | EArr (es, lp, le, p, e) ->
    add "(A ["; List.iteri (fun i a -> if i > 0 then add " "; tree b a) es;
    add (Printf.sprintf "] %s %s %s %s)" (zi lp) (zi le) (zi p) (zi e))
  | EParen (a, p, e) -> add "(G "; tree b a; add (Printf.sprintf " %s %s)" (zi p) (zi e))
  | ESel (a, nm, asrt, p, e) ->
    add "(S "; tree b a; add " "; tree b nm;
    add (Printf.sprintf " %d %s %s)" (if asrt then 1 else 0) (zi p) (zi e))
  | ECall (f, args, lp, le, sp, p, e) ->
    add "(F "; tree b f; add " ["; List.iteri (fun i a -> if i > 0 then add " "; tree b a) args;
    add (Printf.sprintf "] %s %s %s %s %s)" (zi lp) (zi le)
           (match sp with None -> "-" | Some (a, c) -> zi a ^ "/" ^ zi c) (zi p) (zi e))

let obs_parse (text : z list) : ostring =
  match parse_source text with
  | OutOfFuel -> "out-of-fuel"
  | Accepted e -> let b = Buffer.create 256 in Buffer.add_string b "A "; tree b e; Buffer.contents b
  | Rejected (first, all, e) ->
    let ((st, _), code) = first in
    let (l, c) = direct_count text st in
    let b = Buffer.create 256 in
    Buffer.add_string b (Printf.sprintf "R %s,%s,%s|%s|" (zi l) (zi c) (zi code)
                           (String.concat "," (List.map obs_diag all)));
    tree b e; Buffer.contents b

let print_call (b : Buffer.t) ((id, args) : z * value list) : unit =
  Buffer.add_string b (zi id); Buffer.add_char b '(';
  List.iteri (fun i a -> if i > 0 then Buffer.add_char b ' '; print_val b a) args;
  Buffer.add_char b ')'

let obs_state (out : value outcome) (st : rstate) : ostring =
  let b = Buffer.create 128 in
  (match out with
   | Ok v -> Buffer.add_string b "V "; print_val b v
   | Err -> Buffer.add_string b "E"
   | Panic -> Buffer.add_string b "P"
   | Unk -> Buffer.add_string b "U");
  Buffer.add_char b '|';
  (match st.r_this with
   | None -> Buffer.add_char b '-'
   | Some m -> print_val b (VMap m));
  Buffer.add_char b '|';
  List.iteri (fun i c -> if i > 0 then Buffer.add_char b ';'; print_call b c) (List.rev st.r_trace);
  Buffer.contents b

let obs_eval (text : z list) (off : z) (hosts : ostring) (data : ostring) : ostring =
  match parse_source text with
  | Accepted e ->
    let hs = hosts_of_spec hosts in
    let this = if data = "-" then None else (match value_of_wire data with VMap m -> Some m | _ -> None) in
    let (out, st) = eval hs off (strip e) { r_this = this; r_trace = [] } in
    obs_state out st
  | _ -> "parse-error"

(* EF: the float64 handed back by the public entry point, as its bit pattern *)
let hex16_of_z (n : z) : ostring =
  let digits = "0123456789abcdef" in
  let sixteen = z_of_dec "16" in
  let b = Bytes.make 16 '0' in
  let r = ref n in
  for i = 15 downto 0 do
    let (q, m) = (match Z.div_eucl !r sixteen with (q, m) -> (q, m)) in
    Bytes.set b i digits.[int_of_z m]; r := q
  done; Bytes.to_string b

let obs_float_exit (text : z list) (off : z) (hosts : ostring) (data : ostring) : ostring =
  match parse_source text with
  | Accepted e ->
    let hs = hosts_of_spec hosts in
    let this = if data = "-" then None else (match value_of_wire data with VMap m -> Some m | _ -> None) in
    (match eval hs off (strip e) { r_this = this; r_trace = [] } with
     | (Ok (VNum d), _) -> "F" ^ hex16_of_z (f64_bits (f64_of_dec d))
     | (Unk, _) -> "U"
     | _ -> "U")
  | _ -> "parse-error"

let obs_field_list (l : z list list option) : ostring =
  match l with
  | None -> "E"
  | Some fs ->
    let hs = List.sort compare (List.map (fun f -> if f = [] then "-" else hex_of_bytes f) fs) in
    "F" ^ String.concat "," hs

let obs_fields (text : z list) : ostring =
  match parse_source text with
  | Accepted e -> let x = strip e in obs_field_list (fields_of x) ^ "|" ^ obs_field_list (fields_not_local x)
  | _ -> "parse-error"

let split_on (c : char) (s : ostring) : ostring list = String.split_on_char c s

let split_first (c : char) (s : ostring) : ostring * ostring =
  let i = String.index s c in (String.sub s 0 i, String.sub s (i + 1) (String.length s - i - 1))

let obs_history (hosts : ostring) (maps : ostring) (ops : ostring) : ostring =
  let hs = hosts_of_spec hosts in
  let heap =
    if maps = "-" then [] else
      List.map (fun m -> let (id, w) = split_first '=' m in
                 (z_of_dec id, (match value_of_wire w with VMap kv -> kv | _ -> []))) (split_on '~' maps) in
  let parse_errors = ref [] in
  let public_calls = ref [] in   (* Q: the public Resolve; only the class of its result is observed *)
  let op_of (i : int) (o : ostring) : rop =
    let body = String.sub o 1 (String.length o - 1) in
    match o.[0] with
    | 'T' -> if o = "Tn" then OpSetThis None else OpSetThis (Some (z_of_dec body))
    | 'V' -> let (k, w) = split_first '=' body in OpSetThisValue (bytes_of_hex k, value_of_wire w)
    | 'S' -> let (k, w) = split_first '=' body in OpSet (bytes_of_hex k, value_of_wire w)
    | 'G' -> OpGet (bytes_of_hex body)
    | 'W' -> let (id, kw) = split_first ':' body in let (k, w) = split_first '=' kw in
      OpCallerWrite (z_of_dec id, bytes_of_hex k, value_of_wire w)
    | 'R' | 'Q' -> (match parse_source (bytes_of_hex body) with
        | Accepted e -> if o.[0] = 'Q' then public_calls := i :: !public_calls; OpResolve (strip e)
        | _ -> parse_errors := i :: !parse_errors; OpGet [])
    | _ -> failwith "op" in
  let opl = List.mapi op_of (split_on '~' ops) in
  let obs = rrun hs Z0 (new_runner heap) opl in
  let out = ref [] in
  List.iteri (fun i ob ->
      if List.mem i !parse_errors then out := "parse-error" :: !out
      else match ob with
        | ObsNone -> ()
        | ObsValue (Ok _) when List.mem i !public_calls -> out := "QV" :: !out
        | ObsValue Unk -> out := "U" :: !out
        | ObsValue _ when List.mem i !public_calls -> out := "QE" :: !out
        | ObsValue (Ok v) -> out := ("V " ^ wire_of_value v) :: !out
        | ObsValue Unk -> out := "U" :: !out
        | ObsValue _ -> out := "E" :: !out
        | ObsGet v -> out := ("G " ^ wire_of_value v) :: !out) obs;
  String.concat ";" (List.rev !out)

let run_case (fields : ostring list) : ostring =
  match fields with
  | ["LC"; text; off] ->
    let t = bytes_of_hex text and o = z_of_dec off in
    let (dl, dc) = direct_count t o in
    Printf.sprintf "%s|%s,%s" (obs_line_col t o) (string_of_zint dl) (string_of_zint dc)
  | ["LS"; text] ->
    String.concat "," (List.map string_of_zint (line_starts (bytes_of_hex text)))
  | ["SC"; text] -> obs_scan (bytes_of_hex text)
  | ["PA"; text] -> obs_parse (bytes_of_hex text)
  | ["EV"; text; off; hosts; data] -> obs_eval (bytes_of_hex text) (z_of_dec off) hosts data
  | "NOP" :: _ -> "-"
  | ["EF"; text; off; hosts; data] -> obs_float_exit (bytes_of_hex text) (z_of_dec off) hosts data
  | ["TD"; ns; off] ->   (* toDay as a function of one clock reading *)
    let t = today_of { t_ns = z_of_dec ns; t_off = z_of_dec off } in
    Printf.sprintf "%s:%s" (string_of_zint t.t_ns) (string_of_zint t.t_off)
  | ["RH"; hosts; maps; ops] -> obs_history hosts maps ops
  | ["FD"; text] -> obs_fields (bytes_of_hex text)
  | cmd :: _ -> "unknown-command:" ^ cmd
  | [] -> "empty"

let () =
  try
    while true do
      let line = input_line stdin in
      let out = try run_case (split_tab line) with e -> "driver-exception:" ^ Printexc.to_string e in
      print_string out; print_char '\n'
    done
  with End_of_file -> ()
