module verif/mutate

go 1.22.0
