// mutate: lists small syntactic mutations of the library's source (for bin/muttest): comparison and arithmetic
// operators swapped, && / || swapped, integer literals off by one, conditions negated, boolean constants flipped.
// Output: one JSON object per line {file, offset, length, text, kind, line, func}: replace `length` bytes at
// `offset` of `file` by `text`.
package main

import (
	"encoding/json"
	"fmt"
	"go/ast"
	"go/parser"
	"go/token"
	"os"
	"path/filepath"
	"strconv"
)

type mut struct {
	File   string `json:"file"`
	Offset int    `json:"offset"`
	Length int    `json:"length"`
	Text   string `json:"text"`
	Kind   string `json:"kind"`
	Line   int    `json:"line"`
	Func   string `json:"func"`
}

var swaps = map[token.Token][]string{
	token.LSS: {"<="}, token.LEQ: {"<"}, token.GTR: {">="}, token.GEQ: {">"}, token.EQL: {"!="}, token.NEQ: {"=="},
	token.LAND: {"||"}, token.LOR: {"&&"}, token.ADD: {"-"}, token.SUB: {"+"},
}

func main() {
	dir := os.Args[1]
	enc := json.NewEncoder(os.Stdout)
	for _, name := range []string{"scanner.go", "parser.go", "runner.go", "resolve.go", "utilities.go", "types.go"} {
		path := filepath.Join(dir, name)
		fset := token.NewFileSet()
		f, err := parser.ParseFile(fset, path, nil, 0)
		if err != nil {
			fmt.Fprintln(os.Stderr, err)
			os.Exit(1)
		}
		for _, d := range f.Decls {
			fd, ok := d.(*ast.FuncDecl)
			if !ok || fd.Body == nil {
				continue
			}
			fn := fd.Name.Name
			emit := func(pos token.Pos, length int, text, kind string) {
				p := fset.Position(pos)
				enc.Encode(mut{name, p.Offset, length, text, kind, p.Line, fn})
			}
			ast.Inspect(fd.Body, func(n ast.Node) bool {
				switch x := n.(type) {
				case *ast.BinaryExpr:
					for _, r := range swaps[x.Op] {
						if x.Op == token.ADD || x.Op == token.SUB {
							// skip string concatenation in messages
							if bl, ok := x.X.(*ast.BasicLit); ok && bl.Kind == token.STRING {
								continue
							}
							if bl, ok := x.Y.(*ast.BasicLit); ok && bl.Kind == token.STRING {
								continue
							}
						}
						emit(x.OpPos, len(x.Op.String()), r, "op "+x.Op.String()+"->"+r)
					}
				case *ast.BasicLit:
					if x.Kind == token.INT {
						if v, err := strconv.ParseInt(x.Value, 0, 64); err == nil && v >= 0 && v < 1000 {
							emit(x.Pos(), len(x.Value), strconv.FormatInt(v+1, 10), "int+1")
							if v > 0 {
								emit(x.Pos(), len(x.Value), strconv.FormatInt(v-1, 10), "int-1")
							}
						}
					}
				case *ast.IfStmt:
					if x.Cond != nil {
						p0, p1 := fset.Position(x.Cond.Pos()), fset.Position(x.Cond.End())
						src, _ := os.ReadFile(path)
						emit(x.Cond.Pos(), p1.Offset-p0.Offset, "!("+string(src[p0.Offset:p1.Offset])+")", "negate-if")
					}
				case *ast.Ident:
					if x.Name == "true" {
						emit(x.Pos(), 4, "false", "true->false")
					} else if x.Name == "false" {
						emit(x.Pos(), 5, "true", "false->true")
					}
				}
				return true
			})
		}
	}
}
