module verif/effects

go 1.22.0

toolchain go1.23.5

require golang.org/x/tools v0.29.0

require (
	github.com/aundis/formula v0.0.0-00010101000000-000000000000 // indirect
	golang.org/x/mod v0.22.0 // indirect
	golang.org/x/sync v0.10.0 // indirect
)

replace github.com/aundis/formula => /repo
