// effects: a small translator from the SSA form of package formula to a Coq table of write footprints.
// For every function of the package (and every anonymous function inside it) it lists the functions it may
// call and every store it performs, classified by the ROOT of the written address:
//
//	global:<name>              a package-level variable (or something reachable from it)
//	param:<name>:<type>.<path> a field/element reachable from a parameter or receiver
//	fresh                      an object allocated in this function (new, composite literal, make)
//	local                      a local variable slot
//	result:<callee>            memory returned by a call
//
// Calls to methods outside the package whose receiver is rooted in a global or parameter are listed as
// extcall:<root>:<method> (e.g. sync.Map.Store on innerMap).  No alias analysis is performed.
package main

import (
	"fmt"
	"go/token"
	"go/types"
	"os"
	"sort"
	"strings"

	"golang.org/x/tools/go/packages"
	"golang.org/x/tools/go/ssa"
	"golang.org/x/tools/go/ssa/ssautil"
)

const pkgPath = "github.com/aundis/formula"

// extMethodCall records what a call of method g of another package, with the receiver as args[0], may write:
// the receiver when it is rooted in a global or parameter (or, for the decimal package, in anything shared), and
// for the decimal package every other pointer argument rooted in something shared (judged by the library's
// contract in Conc/Footprint.v).
func extMethodCall(writes map[string]bool, g *ssa.Function, args []ssa.Value) {
	if g.Signature.Recv() == nil || len(args) == 0 {
		return
	}
	r := root(args[0], 0)
	isDec := g.Pkg != nil && strings.HasSuffix(g.Pkg.Pkg.Path(), "ericlagergren/decimal")
	if strings.HasPrefix(r, "global:") || strings.HasPrefix(r, "param:") || (isDec && sharedRoot(r)) {
		writes["extcall:"+r+":"+g.String()] = true
	}
	if !isDec {
		return
	}
	// reference-typed arguments (other than the receiver) handed to a method of another package
	for ai := 1; ai < len(args); ai++ {
		if _, ok := args[ai].Type().Underlying().(*types.Pointer); !ok {
			continue
		}
		ra := root(args[ai], 0)
		if sharedRoot(ra) {
			writes[fmt.Sprintf("extarg:%s:%s#%d", ra, g.String(), ai)] = true
		}
	}
}

func main() {
	out := os.Args[1]
	cfg := &packages.Config{Mode: packages.LoadAllSyntax, Env: append(os.Environ(), "GOFLAGS=-mod=mod")}
	pkgs, err := packages.Load(cfg, pkgPath)
	if err != nil || len(pkgs) == 0 || len(pkgs[0].Errors) > 0 {
		fmt.Fprintln(os.Stderr, "load failed:", err)
		for _, p := range pkgs {
			for _, e := range p.Errors {
				fmt.Fprintln(os.Stderr, e)
			}
		}
		os.Exit(1)
	}
	prog, spkgs := ssautil.AllPackages(pkgs, ssa.InstantiateGenerics)
	prog.Build()
	var target *ssa.Package
	for _, p := range spkgs {
		if p != nil && p.Pkg.Path() == pkgPath {
			target = p
		}
	}
	if target == nil {
		fmt.Fprintln(os.Stderr, "package not found")
		os.Exit(1)
	}
	// methods by name, for calls through interfaces
	byName := map[string][]*ssa.Function{}
	var funcs []*ssa.Function
	seen := map[*ssa.Function]bool{}
	var add func(f *ssa.Function)
	add = func(f *ssa.Function) {
		if f == nil || seen[f] || f.Blocks == nil {
			return
		}
		if f.Pkg != target && !(f.Pkg == nil && strings.Contains(f.String(), pkgPath)) {
			return
		}
		seen[f] = true
		funcs = append(funcs, f)
		byName[f.Name()] = append(byName[f.Name()], f)
		for _, a := range f.AnonFuncs {
			add(a)
		}
	}
	for f := range ssautil.AllFunctions(prog) {
		add(f)
	}
	sort.Slice(funcs, func(i, j int) bool { return fname(funcs[i]) < fname(funcs[j]) })

	var sb strings.Builder
	sb.WriteString("(* GENERATED on every run by /verif/tools/effects from the SSA form of /repo's working tree. Do not edit. *)\n")
	sb.WriteString("From Coq Require Import List String.\nImport ListNotations.\nOpen Scope string_scope.\n\n")
	sb.WriteString("(* function, callees inside the package, writes *)\n")
	sb.WriteString("Definition impl_effects : list (string * list string * list string) :=\n  [")
	callsites := map[string]map[string]int{} // function -> package function called directly -> number of call sites
	funcrefs := map[string]bool{}            // package functions used as values (stored in tables, passed around)
	// first pass: which functions have their VALUE taken anywhere in the package (an operand that is not the
	// callee of a static call): only those - package functions, closures, bound-method and method-expression
	// wrappers - can be the target of a call through a function value; a function of another package whose value
	// is taken (e.g. the method expression (*decimal.Big).Add stored in a table) is remembered too
	taken := map[*ssa.Function]bool{}
	var extTaken []*ssa.Function
	for _, f := range funcs {
		for _, b := range f.Blocks {
			for _, ins := range b.Instrs {
				var staticCallee ssa.Value
				if ci, ok := ins.(ssa.CallInstruction); ok && ci.Common().StaticCallee() != nil {
					staticCallee = ci.Common().Value
				}
				for _, op := range ins.Operands(nil) {
					if op == nil || *op == nil || *op == staticCallee {
						continue
					}
					if g, ok := (*op).(*ssa.Function); ok {
						if seen[g] {
							taken[g] = true
						} else if !taken[g] {
							taken[g] = true
							extTaken = append(extTaken, g)
						}
					}
				}
			}
		}
	}
	sort.Slice(extTaken, func(i, j int) bool { return extTaken[i].String() < extTaken[j].String() })
	envcalls := map[string]map[string]int{} // function -> environment-reading callee -> number of call sites
	for i, f := range funcs {
		callees := map[string]bool{}
		writes := map[string]bool{}
		for _, b := range f.Blocks {
			for _, ins := range b.Instrs {
				var staticCallee ssa.Value
				if ci, ok := ins.(ssa.CallInstruction); ok && ci.Common().StaticCallee() != nil {
					staticCallee = ci.Common().Value
					if g := ci.Common().StaticCallee(); g.Pkg != nil && g.Pkg != target && envReader(g) {
						if envcalls[fname(f)] == nil {
							envcalls[fname(f)] = map[string]int{}
						}
						envcalls[fname(f)][g.String()]++
					}
				}
				for _, op := range ins.Operands(nil) {
					if op == nil || *op == nil || *op == staticCallee {
						continue
					}
					if g, ok := (*op).(*ssa.Function); ok && seen[g] {
						funcrefs[fname(g)] = true
					}
				}
				if u, ok := ins.(*ssa.UnOp); ok && u.Op == token.MUL {
					// `t := *v` on a *decimal.Big copies the struct but SHARES the coefficient's word array with v:
					// whatever is then done to the copy (RoundToInt, Quantize ...) writes into the caller's number
					if nt, ok := u.Type().(*types.Named); ok && nt.Obj().Name() == "Big" && nt.Obj().Pkg() != nil && strings.HasSuffix(nt.Obj().Pkg().Path(), "ericlagergren/decimal") {
						writes["deccopy:"+root(u.X, 0)] = true
					}
				}
				if _, isGo := ins.(*ssa.Go); isGo {
					// a goroutine started by the library: its panics escape the recover of the entry point and its
					// writes are concurrent with the caller's
					writes["spawn:goroutine"] = true
				}
				switch x := ins.(type) {
				case *ssa.Store:
					writes[root(x.Addr, 0)] = true
				case *ssa.MapUpdate:
					writes["map:"+root(x.Map, 0)] = true
				case ssa.CallInstruction:
					c := x.Common()
					if c.IsInvoke() {
						// interface method call: every method of the package with that name
						for _, g := range byName[c.Method.Name()] {
							callees[fname(g)] = true
						}
						if len(byName[c.Method.Name()]) == 0 {
							writes["extcall:"+root(c.Value, 0)+":"+c.Method.FullName()] = true
						}
						continue
					}
					if g := c.StaticCallee(); g != nil {
						if seen[g] || (g.Pkg == target) {
							callees[fname(g)] = true
							if callsites[fname(f)] == nil {
								callsites[fname(f)] = map[string]int{}
							}
							callsites[fname(f)][fname(g)]++
						} else {
							extMethodCall(writes, g, c.Args)
							// a plain function of another package that is handed the ADDRESS of package state
							// (sync/atomic.AddInt32(&counter, 1), sort.Sort on a global, ...) may write it
							if g.Signature.Recv() == nil {
								for ai, a := range c.Args {
									if _, ok := a.Type().Underlying().(*types.Pointer); !ok {
										continue
									}
									if ra := root(a, 0); strings.HasPrefix(ra, "global:") {
										writes[fmt.Sprintf("extcall:%s:%s#%d", ra, g.String(), ai)] = true
									}
								}
							}
						}
						for _, a := range c.Args {
							if mc, ok := a.(*ssa.MakeClosure); ok {
								if fn, ok := mc.Fn.(*ssa.Function); ok {
									callees[fname(fn)] = true
								}
							}
						}
					} else {
						// dynamic call of a function value: any anonymous function or package function whose
						// signature matches
						sig, _ := c.Value.Type().Underlying().(*types.Signature)
						for _, g := range funcs {
							if sig != nil && taken[g] && g.Signature.Recv() == nil && types.Identical(g.Signature, sig) {
								callees[fname(g)] = true
							}
						}
						// a function of another package whose value is taken in this package and whose type fits:
						// a method expression (T.M, a thunk taking the receiver first) is treated like the static
						// call of that method with these arguments; anything else is recorded as it is
						for _, g := range extTaken {
							if sig == nil || !types.Identical(g.Signature, sig) {
								continue
							}
							if m, ok := g.Object().(*types.Func); ok && strings.HasPrefix(g.Synthetic, "thunk for ") {
								if mf := prog.FuncValue(m); mf != nil && mf.Signature.Recv() != nil {
									extMethodCall(writes, mf, c.Args)
									continue
								}
							}
							if g.Signature.Recv() == nil && !strings.Contains(g.Synthetic, "bound method") && g.Synthetic == "" {
								continue // a plain function of another package: treated as a static call of it would be
							}
							writes["extcall:dynamic:"+g.String()] = true
						}
						if mc, ok := c.Value.(*ssa.MakeClosure); ok {
							if fn, ok := mc.Fn.(*ssa.Function); ok {
								callees[fname(fn)] = true
							}
						}
					}
				}
			}
		}
		if i > 0 {
			sb.WriteString(";\n   ")
		}
		fmt.Fprintf(&sb, "(%q, %s, %s)", fname(f), coqList(callees), coqList(writes))
	}
	sb.WriteString("].\n\n")
	sb.WriteString("(* package functions whose value is taken (table entries, callbacks): reachable through reflection *)\n")
	sb.WriteString("Definition impl_funcrefs : list string :=\n  " + coqList(funcrefs) + ".\n\n")
	sb.WriteString("(* direct calls of package functions, with the number of call sites *)\n")
	sb.WriteString("Definition impl_callsites : list (string * list (string * nat)) :=\n  [")
	{
		var ks []string
		for k := range callsites {
			ks = append(ks, k)
		}
		sort.Strings(ks)
		for i, k := range ks {
			if i > 0 {
				sb.WriteString(";\n   ")
			}
			var cs []string
			for c := range callsites[k] {
				cs = append(cs, c)
			}
			sort.Strings(cs)
			var parts []string
			for _, c := range cs {
				parts = append(parts, fmt.Sprintf("(%q, %d)", c, callsites[k][c]))
			}
			fmt.Fprintf(&sb, "(%q, [%s])", k, strings.Join(parts, "; "))
		}
	}
	sb.WriteString("].\n\n")
	sb.WriteString("(* call sites of functions that read the environment (clock, random source, process, files) *)\n")
	sb.WriteString("Definition impl_envcalls : list (string * list (string * nat)) :=\n  [")
	var efs []string
	for k := range envcalls {
		efs = append(efs, k)
	}
	sort.Strings(efs)
	for i, k := range efs {
		if i > 0 {
			sb.WriteString(";\n   ")
		}
		var cs []string
		for c := range envcalls[k] {
			cs = append(cs, c)
		}
		sort.Strings(cs)
		var parts []string
		for _, c := range cs {
			parts = append(parts, fmt.Sprintf("(%q, %d)", c, envcalls[k][c]))
		}
		fmt.Fprintf(&sb, "(%q, [%s])", k, strings.Join(parts, "; "))
	}
	sb.WriteString("].\n")
	if err := os.WriteFile(out, []byte(sb.String()), 0o644); err != nil {
		fmt.Fprintln(os.Stderr, err)
		os.Exit(1)
	}
}

// sharedRoot: the value may be visible outside the current call (anything but memory allocated by this function
// or returned by an allocator)
func sharedRoot(r string) bool {
	for _, part := range strings.Split(r, "|") {
		switch {
		case strings.HasPrefix(part, "global:"), strings.HasPrefix(part, "param:"), strings.HasPrefix(part, "load:"), strings.HasPrefix(part, "freevar:"):
			return true
		case strings.HasPrefix(part, "result:"):
			if part != "result:newDecimalBig" && !strings.HasSuffix(part, "decimal.WithContext") && !strings.HasSuffix(part, "decimal.New") {
				return true
			}
		}
	}
	return false
}

// envReader: functions of other packages whose result depends on the environment rather than on their arguments
func envReader(g *ssa.Function) bool {
	p := g.Pkg.Pkg.Path()
	n := g.Name()
	switch p {
	case "time":
		return g.Signature.Recv() == nil && (n == "Now" || n == "Since" || n == "Until" || n == "After" || n == "Tick" || n == "Sleep" || n == "NewTimer" || n == "NewTicker")
	case "math/rand", "math/rand/v2", "crypto/rand", "os", "os/exec", "os/user", "net", "net/http", "runtime", "syscall", "io/ioutil":
		return n != "init"
	}
	return false
}

func fname(f *ssa.Function) string {
	s := f.String()
	s = strings.ReplaceAll(s, pkgPath+".", "")
	s = strings.ReplaceAll(s, pkgPath, "formula")
	return s
}

func coqList(m map[string]bool) string {
	var l []string
	for k := range m {
		l = append(l, fmt.Sprintf("%q", k))
	}
	sort.Strings(l)
	return "[" + strings.Join(l, "; ") + "]"
}

func tname(t types.Type) string {
	s := types.TypeString(t, func(p *types.Package) string { return "" })
	return s
}

// root classifies the origin of an address / reference value
func root(v ssa.Value, depth int) string {
	if depth > 30 {
		return "deep"
	}
	switch x := v.(type) {
	case *ssa.Global:
		return "global:" + x.Name()
	case *ssa.Parameter:
		return "param:" + x.Name() + ":" + tname(x.Type())
	case *ssa.FreeVar:
		return "freevar:" + x.Name() + ":" + tname(x.Type())
	case *ssa.Alloc:
		if x.Heap {
			return "fresh"
		}
		return "local"
	case *ssa.MakeMap, *ssa.MakeSlice, *ssa.MakeInterface, *ssa.MakeClosure, *ssa.MakeChan:
		return "fresh"
	case *ssa.FieldAddr:
		r := root(x.X, depth+1)
		if strings.HasPrefix(r, "param:") || strings.HasPrefix(r, "freevar:") || strings.HasPrefix(r, "global:") || strings.HasPrefix(r, "load:") {
			st := deref(x.X.Type())
			if s, ok := st.Underlying().(*types.Struct); ok {
				return r + "." + s.Field(x.Field).Name()
			}
		}
		return r
	case *ssa.Field:
		return root(x.X, depth+1)
	case *ssa.IndexAddr:
		return root(x.X, depth+1) + "[]"
	case *ssa.Index:
		return root(x.X, depth+1)
	case *ssa.UnOp:
		if x.Op == token.MUL {
			r := root(x.X, depth+1)
			if r == "fresh" || r == "local" {
				return r + "*"
			}
			return "load:" + r
		}
		return root(x.X, depth+1)
	case *ssa.Phi:
		var parts []string
		seenp := map[string]bool{}
		for _, e := range x.Edges {
			if e == v {
				continue
			}
			r := root(e, depth+5)
			if !seenp[r] {
				seenp[r] = true
				parts = append(parts, r)
			}
		}
		sort.Strings(parts)
		return strings.Join(parts, "|")
	case *ssa.Call:
		if g := x.Common().StaticCallee(); g != nil && g.Pkg != nil && strings.HasSuffix(g.Pkg.Pkg.Path(), "ericlagergren/decimal") &&
			g.Signature.Recv() != nil && len(x.Common().Args) > 0 && g.Signature.Results().Len() >= 1 {
			// the decimal package's methods hand back the number they store into: (*Big) methods their receiver,
			// Context methods their first argument
			rt := tname(g.Signature.Results().At(0).Type())
			if strings.HasSuffix(rt, "Big") {
				if strings.Contains(tname(g.Signature.Recv().Type()), "Context") {
					if len(x.Common().Args) > 1 {
						return root(x.Common().Args[1], depth+1)
					}
				} else {
					return root(x.Common().Args[0], depth+1)
				}
			}
		}
		if g := x.Common().StaticCallee(); g != nil {
			return "result:" + strings.ReplaceAll(g.String(), pkgPath+".", "")
		}
		return "result:dynamic"
	case *ssa.ChangeType:
		return root(x.X, depth+1)
	case *ssa.ChangeInterface:
		return root(x.X, depth+1)
	case *ssa.Convert:
		// []byte(s) and []rune(s) allocate
		if _, isSlice := x.Type().Underlying().(*types.Slice); isSlice {
			if b, ok := x.X.Type().Underlying().(*types.Basic); ok && b.Info()&types.IsString != 0 {
				return "fresh"
			}
		}
		return root(x.X, depth+1)
	case *ssa.TypeAssert:
		return root(x.X, depth+1)
	case *ssa.Extract:
		return root(x.Tuple, depth+1)
	case *ssa.Slice:
		return root(x.X, depth+1)
	case *ssa.Lookup:
		return "load:" + root(x.X, depth+1)
	case *ssa.Const:
		return "const"
	}
	return fmt.Sprintf("other:%T", v)
}

func deref(t types.Type) types.Type {
	if p, ok := t.Underlying().(*types.Pointer); ok {
		return p.Elem()
	}
	return t
}
